//! RFC 9580 key-derivation and key-wrapping constructions composed from primitive crates:
//! S2K (§3.7), SKESK v4/v6 (§5.3), secret-key protection (§5.5.3, §3.7.2.1), ECDH (§11.5),
//! X25519/X448 (§5.1.6/5.1.7).

use digest::DynDigest;

use super::crypto::{aead_nonce_len, aead_open, aead_seal, cfb_decrypt, cfb_encrypt, sym_params};

pub fn hasher(id: u8) -> Option<Box<dyn DynDigest>> {
    Some(match id {
        1 => Box::new(md5::Md5::default()),
        2 => Box::new(sha1::Sha1::default()),
        3 => Box::new(ripemd::Ripemd160::default()),
        8 => Box::new(sha2::Sha256::default()),
        9 => Box::new(sha2::Sha384::default()),
        10 => Box::new(sha2::Sha512::default()),
        11 => Box::new(sha2::Sha224::default()),
        12 => Box::new(sha3::Sha3_256::default()),
        14 => Box::new(sha3::Sha3_512::default()),
        _ => return None,
    })
}

pub fn hash(id: u8, parts: &[&[u8]]) -> Vec<u8> {
    let mut h = hasher(id).expect("hash id");
    for p in parts {
        h.update(p);
    }
    h.finalize().to_vec()
}

#[derive(Clone, Debug, PartialEq, Eq)]
pub enum S2k {
    Simple { hash: u8 },
    Salted { hash: u8, salt: [u8; 8] },
    Iterated { hash: u8, salt: [u8; 8], count: u8 },
    Argon2 { salt: [u8; 16], t: u8, p: u8, m_enc: u8 },
}

impl S2k {
    pub fn to_bytes(&self) -> Vec<u8> {
        match self {
            S2k::Simple { hash } => vec![0, *hash],
            S2k::Salted { hash, salt } => [&[1u8, *hash][..], &salt[..]].concat(),
            S2k::Iterated { hash, salt, count } => {
                [&[3u8, *hash][..], &salt[..], &[*count][..]].concat()
            }
            S2k::Argon2 { salt, t, p, m_enc } => [&[4u8][..], &salt[..], &[*t, *p, *m_enc][..]].concat(),
        }
    }
    pub fn parse(b: &[u8]) -> Option<(S2k, usize)> {
        match *b.first()? {
            0 => Some((S2k::Simple { hash: *b.get(1)? }, 2)),
            1 => Some((
                S2k::Salted {
                    hash: *b.get(1)?,
                    salt: b.get(2..10)?.try_into().ok()?,
                },
                10,
            )),
            3 => Some((
                S2k::Iterated {
                    hash: *b.get(1)?,
                    salt: b.get(2..10)?.try_into().ok()?,
                    count: *b.get(10)?,
                },
                11,
            )),
            4 => Some((
                S2k::Argon2 {
                    salt: b.get(1..17)?.try_into().ok()?,
                    t: *b.get(17)?,
                    p: *b.get(18)?,
                    m_enc: *b.get(19)?,
                },
                20,
            )),
            _ => None,
        }
    }
}

/// "count = (16 + (c & 15)) << ((c >> 4) + 6)"
pub fn decode_count(c: u8) -> usize {
    (16usize + (c as usize & 15)) << ((c as usize >> 4) + 6)
}

/// S2K key derivation, octet-wise definition: context i is preloaded with i zero octets and
/// hashes `count` octets of the endlessly repeated salt||passphrase (at least one full copy).
pub fn s2k_derive(s: &S2k, pass: &[u8], size: usize) -> Option<Vec<u8>> {
    match s {
        S2k::Argon2 { salt, t, p, m_enc } => {
            let params = argon2::Params::new(1u32 << m_enc, *t as u32, *p as u32, Some(size)).ok()?;
            let a = argon2::Argon2::new(argon2::Algorithm::Argon2id, argon2::Version::V0x13, params);
            let mut out = vec![0u8; size];
            a.hash_password_into(pass, &salt[..], &mut out).ok()?;
            Some(out)
        }
        _ => {
            let (hash_id, data, count): (u8, Vec<u8>, usize) = match s {
                S2k::Simple { hash } => (*hash, pass.to_vec(), pass.len()),
                S2k::Salted { hash, salt } => {
                    let d = [&salt[..], pass].concat();
                    let n = d.len();
                    (*hash, d, n)
                }
                S2k::Iterated { hash, salt, count } => {
                    let d = [&salt[..], pass].concat();
                    let n = decode_count(*count).max(d.len());
                    (*hash, d, n)
                }
                S2k::Argon2 { .. } => unreachable!(),
            };
            let mut out = Vec::new();
            let mut ctx = 0usize;
            while out.len() < size {
                let mut h = hasher(hash_id)?;
                h.update(&vec![0u8; ctx]);
                if data.is_empty() {
                    // nothing to repeat
                } else {
                    let mut left = count;
                    while left > 0 {
                        let k = left.min(data.len());
                        h.update(&data[..k]);
                        left -= k;
                    }
                }
                out.extend_from_slice(&h.finalize());
                ctx += 1;
            }
            out.truncate(size);
            Some(out)
        }
    }
}

/// SKESK v4 body.  With `session_key = None` the S2K output itself is the session key.
pub fn skesk_v4(sym: u8, s2k: &S2k, pass: &[u8], session: Option<(u8, &[u8])>) -> Vec<u8> {
    let (_, ks) = sym_params(sym).expect("cipher");
    let mut out = vec![4u8, sym];
    out.extend_from_slice(&s2k.to_bytes());
    if let Some((alg, sk)) = session {
        let kek = s2k_derive(s2k, pass, ks).expect("s2k");
        let (bs, _) = sym_params(sym).unwrap();
        let mut buf = vec![alg];
        buf.extend_from_slice(sk);
        cfb_encrypt(sym, &kek, &vec![0u8; bs], &mut buf);
        out.extend_from_slice(&buf);
    }
    out
}

/// Returns (cipher id, session key).
pub fn skesk_v4_open(body: &[u8], pass: &[u8]) -> Option<(u8, Vec<u8>)> {
    if body.first() != Some(&4) {
        return None;
    }
    let sym = *body.get(1)?;
    let (bs, ks) = sym_params(sym)?;
    let (s2k, n) = S2k::parse(&body[2..])?;
    let kek = s2k_derive(&s2k, pass, ks)?;
    let rest = &body[2 + n..];
    if rest.is_empty() {
        return Some((sym, kek));
    }
    let mut buf = rest.to_vec();
    cfb_decrypt(sym, &kek, &vec![0u8; bs], &mut buf);
    Some((buf[0], buf[1..].to_vec()))
}

/// SKESK v6 body (RFC 9580 §5.3.2).
pub fn skesk_v6(sym: u8, aead: u8, s2k: &S2k, iv: &[u8], pass: &[u8], session_key: &[u8]) -> Vec<u8> {
    let (_, ks) = sym_params(sym).expect("cipher");
    let s2kb = s2k.to_bytes();
    let info = [0xC3u8, 6, sym, aead];
    let ikm = s2k_derive(s2k, pass, ks).expect("s2k");
    let hk = hkdf::Hkdf::<sha2::Sha256>::new(None, &ikm);
    let mut kek = vec![0u8; ks];
    hk.expand(&info, &mut kek).expect("hkdf");
    let ct = aead_seal(sym, aead, &kek, iv, &info, session_key);
    let count = 3 + s2kb.len() + iv.len();
    let mut out = vec![6u8, count as u8, sym, aead, s2kb.len() as u8];
    out.extend_from_slice(&s2kb);
    out.extend_from_slice(iv);
    out.extend_from_slice(&ct);
    out
}

pub fn skesk_v6_open(body: &[u8], pass: &[u8]) -> Option<Vec<u8>> {
    if body.first() != Some(&6) {
        return None;
    }
    let sym = *body.get(2)?;
    let aead = *body.get(3)?;
    let s2k_len = *body.get(4)? as usize;
    let (s2k, n) = S2k::parse(body.get(5..5 + s2k_len)?)?;
    if n != s2k_len {
        return None;
    }
    let nl = aead_nonce_len(aead)?;
    // the count octet covers cipher, AEAD mode, S2K length octet, S2K specifier and IV (RFC 9580 5.3.2)
    if *body.get(1)? as usize != 3 + s2k_len + nl {
        return None;
    }
    let iv = body.get(5 + s2k_len..5 + s2k_len + nl)?;
    let ct = body.get(5 + s2k_len + nl..)?;
    let (_, ks) = sym_params(sym)?;
    let info = [0xC3u8, 6, sym, aead];
    let ikm = s2k_derive(&s2k, pass, ks)?;
    let hk = hkdf::Hkdf::<sha2::Sha256>::new(None, &ikm);
    let mut kek = vec![0u8; ks];
    hk.expand(&info, &mut kek).ok()?;
    aead_open(sym, aead, &kek, iv, &info, ct)
}

/// 16-bit additive checksum.
pub fn checksum16(data: &[u8]) -> [u8; 2] {
    let s: u32 = data.iter().map(|&b| b as u32).sum();
    ((s & 0xFFFF) as u16).to_be_bytes()
}

/// Secret-key protection, usage 254: CFB(S2K(pass), iv) over material || SHA-1(material).
pub fn protect_254(sym: u8, s2k: &S2k, iv: &[u8], pass: &[u8], material: &[u8]) -> Vec<u8> {
    use sha1::Digest;
    let (_, ks) = sym_params(sym).expect("cipher");
    let key = s2k_derive(s2k, pass, ks).expect("s2k");
    let mut buf = material.to_vec();
    buf.extend_from_slice(&sha1::Sha1::digest(material));
    cfb_encrypt(sym, &key, iv, &mut buf);
    buf
}

pub fn unprotect_254(sym: u8, s2k: &S2k, iv: &[u8], pass: &[u8], blob: &[u8]) -> Option<Vec<u8>> {
    use sha1::Digest;
    let (_, ks) = sym_params(sym)?;
    let key = s2k_derive(s2k, pass, ks)?;
    let mut buf = blob.to_vec();
    cfb_decrypt(sym, &key, iv, &mut buf);
    if buf.len() < 20 {
        return None;
    }
    let (m, h) = buf.split_at(buf.len() - 20);
    if sha1::Sha1::digest(m)[..] != h[..] {
        return None;
    }
    Some(m.to_vec())
}

/// Usage 255 / legacy cipher octet (v4): CFB over material || 2-octet checksum.
pub fn protect_255(sym: u8, s2k: &S2k, iv: &[u8], pass: &[u8], material: &[u8]) -> Vec<u8> {
    let (_, ks) = sym_params(sym).expect("cipher");
    let key = s2k_derive(s2k, pass, ks).expect("s2k");
    let mut buf = material.to_vec();
    buf.extend_from_slice(&checksum16(material));
    cfb_encrypt(sym, &key, iv, &mut buf);
    buf
}

pub fn unprotect_255(sym: u8, s2k: &S2k, iv: &[u8], pass: &[u8], blob: &[u8]) -> Option<Vec<u8>> {
    let (_, ks) = sym_params(sym)?;
    let key = s2k_derive(s2k, pass, ks)?;
    let mut buf = blob.to_vec();
    cfb_decrypt(sym, &key, iv, &mut buf);
    if buf.len() < 2 {
        return None;
    }
    let (m, c) = buf.split_at(buf.len() - 2);
    if checksum16(m) != c {
        return None;
    }
    Some(m.to_vec())
}

/// Usage 253 (AEAD), RFC 9580 §3.7.2.1: KEK = HKDF-SHA256(S2K(pass), info = tag-octet, version,
/// cipher, mode); AD = tag-octet || public key packet fields; nonce = the stored IV.
pub fn protect_253(
    tag_octet: u8,
    key_version: u8,
    sym: u8,
    aead: u8,
    s2k: &S2k,
    nonce: &[u8],
    pass: &[u8],
    public_body: &[u8],
    material: &[u8],
) -> Vec<u8> {
    let (_, ks) = sym_params(sym).expect("cipher");
    let info = [tag_octet, key_version, sym, aead];
    let ikm = s2k_derive(s2k, pass, ks).expect("s2k");
    let hk = hkdf::Hkdf::<sha2::Sha256>::new(None, &ikm);
    let mut kek = vec![0u8; ks];
    hk.expand(&info, &mut kek).expect("hkdf");
    let ad = [&[tag_octet][..], public_body].concat();
    aead_seal(sym, aead, &kek, nonce, &ad, material)
}

pub fn unprotect_253(
    tag_octet: u8,
    key_version: u8,
    sym: u8,
    aead: u8,
    s2k: &S2k,
    nonce: &[u8],
    pass: &[u8],
    public_body: &[u8],
    blob: &[u8],
) -> Option<Vec<u8>> {
    let (_, ks) = sym_params(sym)?;
    let info = [tag_octet, key_version, sym, aead];
    let ikm = s2k_derive(s2k, pass, ks)?;
    let hk = hkdf::Hkdf::<sha2::Sha256>::new(None, &ikm);
    let mut kek = vec![0u8; ks];
    hk.expand(&info, &mut kek).ok()?;
    let ad = [&[tag_octet][..], public_body].concat();
    aead_open(sym, aead, &kek, nonce, &ad, blob)
}

/// AES key wrap (RFC 3394) through the aes-kw primitive crate.
pub fn aes_kw_wrap(kek: &[u8], data: &[u8]) -> Option<Vec<u8>> {
    let mut out = vec![0u8; data.len() + 8];
    match kek.len() {
        16 => aes_kw::KekAes128::new(kek.try_into().ok()?).wrap(data, &mut out).ok()?,
        24 => aes_kw::KekAes192::new(kek.try_into().ok()?).wrap(data, &mut out).ok()?,
        32 => aes_kw::KekAes256::new(kek.try_into().ok()?).wrap(data, &mut out).ok()?,
        _ => return None,
    };
    Some(out)
}

pub fn aes_kw_unwrap(kek: &[u8], data: &[u8]) -> Option<Vec<u8>> {
    if data.len() < 16 || data.len() % 8 != 0 {
        return None;
    }
    let mut out = vec![0u8; data.len() - 8];
    match kek.len() {
        16 => aes_kw::KekAes128::new(kek.try_into().ok()?).unwrap(data, &mut out).ok()?,
        24 => aes_kw::KekAes192::new(kek.try_into().ok()?).unwrap(data, &mut out).ok()?,
        32 => aes_kw::KekAes256::new(kek.try_into().ok()?).unwrap(data, &mut out).ok()?,
        _ => return None,
    };
    Some(out)
}

/// X25519 PKESK key derivation (RFC 9580 §5.1.6): HKDF-SHA256(ephemeral || recipient || shared,
/// info "OpenPGP X25519") -> 16-octet AES-128 key-wrap key.
pub fn x25519_kek(ephemeral_pub: &[u8; 32], recipient_pub: &[u8; 32], shared: &[u8; 32]) -> [u8; 16] {
    let ikm = [&ephemeral_pub[..], &recipient_pub[..], &shared[..]].concat();
    let hk = hkdf::Hkdf::<sha2::Sha256>::new(None, &ikm);
    let mut kek = [0u8; 16];
    hk.expand(b"OpenPGP X25519", &mut kek).expect("hkdf");
    kek
}

/// ECDH KDF (RFC 9580 §11.5): Hash(00 00 00 01 || Z || Param), Param = oid_len oid 12 03 01
/// kdf_hash kek_alg "Anonymous Sender    " fingerprint.
pub fn ecdh_kek(
    z: &[u8],
    curve_oid: &[u8],
    kdf_hash: u8,
    kek_alg: u8,
    fingerprint: &[u8],
) -> Vec<u8> {
    let mut param = vec![curve_oid.len() as u8];
    param.extend_from_slice(curve_oid);
    param.push(18);
    param.extend_from_slice(&[3, 1, kdf_hash, kek_alg]);
    param.extend_from_slice(b"Anonymous Sender    ");
    param.extend_from_slice(fingerprint);
    let h = hash(kdf_hash, &[&[0, 0, 0, 1], z, &param]);
    let (_, ks) = sym_params(kek_alg).expect("kek alg");
    h[..ks].to_vec()
}

/// PKCS5-style padding of the ECDH plaintext to a multiple of 8 octets.
pub fn ecdh_pad(m: &[u8]) -> Vec<u8> {
    let pad = 8 - m.len() % 8;
    let mut out = m.to_vec();
    out.extend(std::iter::repeat(pad as u8).take(pad));
    out
}

pub fn ecdh_unpad(m: &[u8]) -> Option<Vec<u8>> {
    let p = *m.last()? as usize;
    if p == 0 || p > 8 || p > m.len() || m[m.len() - p..].iter().any(|&b| b as usize != p) {
        return None;
    }
    Some(m[..m.len() - p].to_vec())
}

/// A model-made ECDH key agreement towards the public (sub)key packet body `pub_body`
/// (P-256 and Curve25519Legacy): picks an ephemeral scalar (the first one from `start` whose
/// shared secret begins with `leading_zeros` zero octets), and returns (ephemeral point as it
/// goes into the PKESK MPI, key-wrap key per RFC 9580 11.5, shared secret).
pub fn ecdh_model_agree(pub_body: &[u8], fingerprint: &[u8], start: u64, leading_zeros: usize) -> Option<(Vec<u8>, Vec<u8>, Vec<u8>)> {
    use super::codec;
    let d = codec::decode_packet(14, pub_body).ok()?;
    let codec::Summary::Key(k) = &d.summary else { return None };
    let pubmat = &pub_body[k.material.0..k.material.1];
    let oid_len = *pubmat.first()? as usize;
    let oid = pubmat.get(1..1 + oid_len)?;
    let kdfp = pubmat.get(pubmat.len() - 4..)?;
    let (kdf_hash, kek_alg) = (kdfp[2], kdfp[3]);
    let point = pubmat.get(1 + oid_len + 2..pubmat.len() - 4)?;
    for i in 0..20_000u64 {
        let seed = start + i;
        let (eph_point, z): (Vec<u8>, Vec<u8>) = if oid == [0x2B, 0x06, 0x01, 0x04, 0x01, 0x97, 0x55, 0x01, 0x05, 0x01] {
            let mut sk = [0x42u8; 32];
            sk[..8].copy_from_slice(&seed.to_le_bytes());
            let esec = x25519_dalek::StaticSecret::from(sk);
            let epub = x25519_dalek::PublicKey::from(&esec);
            let recip: [u8; 32] = point.get(1..33)?.try_into().ok()?;
            let sh = esec.diffie_hellman(&x25519_dalek::PublicKey::from(recip));
            ([&[0x40u8][..], epub.as_bytes()].concat(), sh.as_bytes().to_vec())
        } else if oid == [0x2A, 0x86, 0x48, 0xCE, 0x3D, 0x03, 0x01, 0x07] {
            use p256::elliptic_curve::sec1::{FromEncodedPoint, ToEncodedPoint};
            let mut sk = [0x11u8; 32];
            sk[24..].copy_from_slice(&seed.to_be_bytes());
            let esk = p256::SecretKey::from_slice(&sk).ok()?;
            let ep = p256::EncodedPoint::from_bytes(point).ok()?;
            let pkp = Option::<p256::PublicKey>::from(p256::PublicKey::from_encoded_point(&ep))?;
            let sh = p256::ecdh::diffie_hellman(esk.to_nonzero_scalar(), pkp.as_affine());
            (esk.public_key().to_encoded_point(false).as_bytes().to_vec(), sh.raw_secret_bytes().to_vec())
        } else {
            return None;
        };
        if z.iter().take(leading_zeros).all(|b| *b == 0) && (leading_zeros == 0 || z.iter().take_while(|b| **b == 0).count() >= leading_zeros) {
            let kek = ecdh_kek(&z, oid, kdf_hash, kek_alg, fingerprint);
            return Some((eph_point, kek, z));
        }
    }
    None
}

/// Binds the model to the specification: the RFC 9580 sample messages shipped in /repo/tests.
pub fn self_test() -> Result<(), String> {
    use super::{codec, crypto};
    // count decoding examples
    if decode_count(0) != 1024 || decode_count(96) != 65536 || decode_count(255) != 65_011_712 {
        return Err("decode_count".into());
    }
    // RFC 9580 A.9-A.11: SKESK v6 + SEIPDv2, password "password", plaintext "Hello, world!"
    for f in ["eax", "ocb", "gcm"] {
        let path = format!("/repo/tests/unit-tests/aead/{f}.msg");
        let text = std::fs::read(&path).map_err(|e| format!("{path}: {e}"))?;
        let bin = codec::dearmor(&text).map_err(|e| format!("{path}: {e}"))?;
        let ps = codec::split_packets(&bin).map_err(|e| format!("{path}: {e}"))?;
        let skesk = ps.iter().find(|p| p.0 == 3).ok_or("no skesk")?;
        let seipd = ps.iter().find(|p| p.0 == 18).ok_or("no seipd")?;
        let sk = skesk_v6_open(&skesk.2, b"password").ok_or(format!("{f}: SKESK v6 does not open"))?;
        let pt = crypto::seipdv2_open(&sk, &seipd.2).ok_or(format!("{f}: SEIPDv2 does not open"))?;
        if !pt.windows(13).any(|w| w == b"Hello, world!") {
            return Err(format!("{f}: unexpected plaintext"));
        }
    }
    // RFC 9580 A.12: Argon2 SKESK v4 + SEIPDv1, session keys given in the armor comments
    for f in ["aes128", "aes192", "aes256"] {
        let path = format!("/repo/tests/unit-tests/argon2/{f}.msg");
        let text = std::fs::read(&path).map_err(|e| format!("{path}: {e}"))?;
        let key = String::from_utf8_lossy(&text)
            .lines()
            .find_map(|l| l.strip_prefix("Comment: Session key: ").map(|s| s.trim().to_string()))
            .ok_or(format!("{path}: no session key comment"))?;
        let bin = codec::dearmor(&text).map_err(|e| format!("{path}: {e}"))?;
        let ps = codec::split_packets(&bin).map_err(|e| format!("{path}: {e}"))?;
        let skesk = ps.iter().find(|p| p.0 == 3).ok_or("no skesk")?;
        let seipd = ps.iter().find(|p| p.0 == 18).ok_or("no seipd")?;
        let (alg, sk) = skesk_v4_open(&skesk.2, b"password").ok_or(format!("{f}: SKESK v4 does not open"))?;
        // (the longer keys are abbreviated with "..." in the comment)
        if !hex::encode_upper(&sk).starts_with(key.trim_end_matches('.')) {
            return Err(format!("{f}: session key {} != {key}", hex::encode_upper(&sk)));
        }
        let pt = crypto::seipdv1_decrypt(alg, &sk, &seipd.2[1..]).map_err(|e| format!("{f}: SEIPDv1: {e:?}"))?;
        if !pt.windows(13).any(|w| w == b"Hello, world!") {
            return Err(format!("{f}: unexpected plaintext"));
        }
    }
    Ok(())
}
