//! Reference models, written from the RFC text, independent of `pgp::` parsing/serialisation.
pub mod armor;
pub mod canon;
pub mod codec;
pub mod crypto;
pub mod csf;
pub mod frame;
pub mod kdf;
