//! Independent OpenPGP packet-body decoder with a byte-exact field map.
//!
//! Written from the text of RFC 9580 (and RFC 4880 for the legacy v2/v3 forms, plus the
//! widely deployed GnuPG/LibrePGP extensions: S2K type 101, SKESK v5, packet tag 20).
//! Depends on `std` only (the `hex` crate is used by the tests).  Never panics: every
//! read goes through bounds-checked slice access and all failures are `DecodeError`s.
//!
//! Conventions
//! * `decode_packet` takes a packet *body* (framing is handled by `split_packets`).
//! * On success the returned fields tile the body: contiguous, ordered, covering `0..len`.
//!   Zero-length items (empty name, zero-bit MPI value, empty area ...) emit no field.
//! * Unknown packet versions decode as `version` + one `Opaque` field with `Summary::Other`;
//!   unknown algorithms make the algorithm-specific remainder `Opaque`.
//! * Data after the last defined field is never tolerated: it yields `DecodeError::Trailing`.

#[derive(Clone, Copy, Debug, PartialEq, Eq, Hash)]
pub enum Kind {
    Version, SigType, PkAlg, HashAlg, SymAlg, AeadAlg, CompAlg, CurveOidLen, CurveOid,
    Time, Expiry, MpiBits, MpiBody, NativeKeyMaterial, KeyMaterialLen, KdfParams,
    AreaLen, SubpacketLen, SubpacketType, SubpacketBody, Left16, SaltLen, Salt,
    KeyId, Fingerprint, FingerprintLen, KeyVersionOctet,
    S2kUsage, S2kParamsLen, S2kSpecLen, S2kType, S2kSalt, S2kCount, Argon2T, Argon2P, Argon2M,
    Iv, Nonce, ChunkSize, SecretChecksum, EncryptedSecret, EskLen, EncryptedSessionKey, AuthTag,
    LiteralMode, NameLen, Name, Data, NestedFlag,
    UserAttrSubLen, UserAttrSubType, UserAttrBody,
    Opaque,
}

/// Byte range `start..end` within the packet body.
#[derive(Clone, Debug, PartialEq, Eq)]
pub struct Field { pub path: String, pub kind: Kind, pub start: usize, pub end: usize }

#[derive(Clone, Debug, Default)]
pub struct SigInfo {
    pub version: u8, pub typ: u8, pub pk_alg: u8, pub hash_alg: u8,
    /// Hashed subpacket data (without its length field); v3: the 5 hashed octets (type + time).
    pub hashed: (usize, usize),
    /// Unhashed subpacket data; v3: empty range placed after the hashed octets.
    pub unhashed: (usize, usize),
    pub hashed_len_field: (usize, usize), pub unhashed_len_field: (usize, usize),
    pub left16: (usize, usize), pub salt: Option<(usize, usize)>,
    /// Everything after left16 (+ salt length and salt).
    pub sig_material: (usize, usize),
    /// Hashed subpackets first, then unhashed.
    pub subpackets: Vec<SubInfo>,
    pub v3_created: Option<u32>, pub v3_issuer: Option<[u8; 8]>,
}

#[derive(Clone, Debug, Default)]
pub struct SubInfo {
    pub hashed: bool,
    /// Type without the critical bit.
    pub typ: u8,
    pub critical: bool,
    pub len_field: (usize, usize),
    /// Range after the type octet.
    pub body: (usize, usize),
}

#[derive(Clone, Debug, Default)]
pub struct KeyInfo {
    pub version: u8, pub created: u32, pub v3_expiry_days: Option<u16>, pub pk_alg: u8,
    /// Offset where the public part ends (= body length for public key packets, and for secret
    /// key packets of an unknown v3/v4 algorithm, whose public part cannot be delimited).
    pub public_end: usize,
    /// Algorithm-specific public material (v6: after the 4-octet length).
    pub material: (usize, usize),
    pub is_secret: bool,
    pub s2k_usage: Option<u8>, pub sym_alg: Option<u8>, pub aead_alg: Option<u8>, pub s2k_type: Option<u8>,
    /// From the S2K usage octet to the end.
    pub secret_part: Option<(usize, usize)>,
    /// RSA MPI value octets (no bit count), for v3 fingerprints.
    pub rsa_n: Option<Vec<u8>>, pub rsa_e: Option<Vec<u8>>,
}

#[derive(Clone, Debug)]
pub enum Summary { Signature(SigInfo), Key(KeyInfo), Other }

#[derive(Clone, Debug)]
pub struct Decoded {
    pub tag: u8, pub fields: Vec<Field>, pub canonical: bool,
    pub non_canonical_reasons: Vec<String>, pub summary: Summary,
}

#[derive(Clone, Debug, PartialEq, Eq)]
pub enum DecodeError {
    Truncated { at: usize, what: String },
    Trailing { at: usize },
    Unsupported(String),
    Invalid(String),
}

impl std::fmt::Display for DecodeError {
    fn fmt(&self, f: &mut std::fmt::Formatter<'_>) -> std::fmt::Result {
        match self {
            DecodeError::Truncated { at, what } => write!(f, "truncated at {at} reading {what}"),
            DecodeError::Trailing { at } => write!(f, "trailing data at {at}"),
            DecodeError::Unsupported(s) => write!(f, "unsupported: {s}"),
            DecodeError::Invalid(s) => write!(f, "invalid: {s}"),
        }
    }
}
impl std::error::Error for DecodeError {}

type R<T> = Result<T, DecodeError>;
type Span = (usize, usize);
use Kind as K;

fn invalid<T>(msg: impl Into<String>) -> R<T> { Err(DecodeError::Invalid(msg.into())) }

/// Big-endian integer of up to 8 octets.
fn be(b: &[u8]) -> u64 { b.iter().fold(0u64, |a, &x| (a << 8) | u64::from(x)) }

// ------------------------------------------------------------------------------------------
// Cursor: bounds-checked reader that records a field for everything it consumes.
// ------------------------------------------------------------------------------------------

struct Cur<'a> {
    b: &'a [u8],
    pos: usize,
    /// End of the region currently being parsed (body end, or the end of a length-delimited area).
    end: usize,
    fields: Vec<Field>,
    why: Vec<String>,
}

impl<'a> Cur<'a> {
    fn new(b: &'a [u8]) -> Self { Cur { b, pos: 0, end: b.len(), fields: Vec::new(), why: Vec::new() } }

    fn left(&self) -> usize { self.end.saturating_sub(self.pos) }

    fn take(&mut self, n: usize, path: &str, kind: Kind) -> R<&'a [u8]> {
        let trunc = |at: usize| DecodeError::Truncated { at, what: path.to_string() };
        let e = self.pos.checked_add(n).filter(|&e| e <= self.end).ok_or_else(|| trunc(self.pos))?;
        let out = self.b.get(self.pos..e).ok_or_else(|| trunc(self.pos))?;
        if n > 0 {
            self.fields.push(Field { path: path.to_string(), kind, start: self.pos, end: e });
        }
        self.pos = e;
        Ok(out)
    }

    /// Big-endian number of `n <= 4` octets.
    fn num(&mut self, n: usize, path: &str, kind: Kind) -> R<usize> {
        let v = be(self.take(n, path, kind)?);
        usize::try_from(v).or_else(|_| invalid(format!("{path}: value too large")))
    }

    fn u8(&mut self, path: &str, kind: Kind) -> R<u8> { Ok(be(self.take(1, path, kind)?) as u8) }

    fn rest(&mut self, path: &str, kind: Kind) -> &'a [u8] {
        let n = self.left();
        self.take(n, path, kind).unwrap_or(&[])
    }

    fn peek(&self, what: &str) -> R<u8> {
        let t = DecodeError::Truncated { at: self.pos, what: what.to_string() };
        if self.pos >= self.end { return Err(t); }
        self.b.get(self.pos).copied().ok_or(t)
    }

    /// Runs `f` confined to the next `len` octets, which it must consume exactly.  Overrunning
    /// the region is `Invalid` (an inner length contradicts the outer one), not `Truncated`.
    fn region<T>(&mut self, len: usize, what: &str, f: impl FnOnce(&mut Self) -> R<T>) -> R<T> {
        if len > self.left() {
            return Err(DecodeError::Truncated { at: self.pos, what: what.to_string() });
        }
        let outer = self.end;
        self.end = self.pos + len;
        let r = f(self);
        let exact = self.pos == self.end;
        self.end = outer;
        match r {
            Err(DecodeError::Truncated { at, what: w }) => invalid(format!("{w} at {at} overruns {what}")),
            Ok(_) if !exact => invalid(format!("{what}: declared length not fully used (stopped at {})", self.pos)),
            other => other,
        }
    }

    /// One MPI: 2-octet bit count + value octets.  Returns the span of the value octets.
    fn mpi(&mut self, prefix: &str, idx: &mut usize) -> R<Span> {
        let p = format!("{prefix}/mpi{idx}");
        *idx += 1;
        let bits = self.num(2, &format!("{p}/bits"), K::MpiBits)?;
        let start = self.pos;
        let v = self.take(bits.div_ceil(8), &format!("{p}/body"), K::MpiBody)?;
        let actual = match v.first() {
            Some(&f) => v.len() * 8 - f.leading_zeros() as usize,
            None => 0,
        };
        if v.first() == Some(&0) {
            self.why.push(format!("{p}: MPI value has leading zero octet (declared {bits} bits)"));
        } else if actual != bits {
            self.why.push(format!("{p}: MPI declares {bits} bits but value has {actual}"));
        }
        Ok((start, self.pos))
    }

    fn mpis(&mut self, prefix: &str, idx: &mut usize, n: usize) -> R<()> {
        for _ in 0..n { self.mpi(prefix, idx)?; }
        Ok(())
    }

    /// Subpacket-style length: 1 octet (<192), 2 octets (192..=16319), 5 octets (0xFF + u32).
    fn varlen(&mut self, path: &str, kind: Kind) -> R<(usize, Span)> {
        let start = self.pos;
        let n = match self.peek(path)? { 0..=191 => 1, 192..=254 => 2, 255 => 5 };
        let raw = self.take(n, path, kind)?;
        let len = match n {
            1 => be(raw),
            2 => be(raw) - (192 << 8) + 192,
            _ => be(raw) & 0xffff_ffff,
        };
        if n == 5 && len < 16320 {
            self.why.push(format!("{path}: 5-octet length form used for length {len}"));
        }
        let len = usize::try_from(len).or_else(|_| invalid(format!("{path}: length too large")))?;
        Ok((len, (start, self.pos)))
    }
}

// ------------------------------------------------------------------------------------------
// Algorithm tables
// ------------------------------------------------------------------------------------------

/// Cipher block size = CFB IV length.
fn block_size(sym: u8) -> Option<usize> {
    match sym { 1..=4 => Some(8), 7..=13 => Some(16), _ => None }
}

/// AEAD nonce length (EAX, OCB, GCM); all tags are 16 octets.
fn nonce_len(aead: u8) -> Option<usize> {
    match aead { 1 => Some(16), 2 => Some(15), 3 => Some(12), _ => None }
}
const TAG_LEN: usize = 16;

/// Size of native (non-MPI) public keys; secret keys have the same size.
fn native_key_len(alg: u8) -> Option<usize> {
    match alg { 25 | 27 => Some(32), 26 => Some(56), 28 => Some(57), _ => None }
}

// ------------------------------------------------------------------------------------------
// Shared pieces: S2K specifier, subpacket areas
// ------------------------------------------------------------------------------------------

/// Parses an S2K specifier.  `len` is the v6 specifier length octet when present.
/// Returns false if an unknown specifier swallowed the rest of the region as `Opaque`.
fn s2k(c: &mut Cur, p: &str, len: Option<usize>, typ: &mut Option<u8>) -> R<bool> {
    let start = c.pos;
    let t = c.u8(&format!("{p}/type"), K::S2kType)?;
    *typ = Some(t);
    match t {
        0 | 1 | 3 => {
            c.u8(&format!("{p}/hash_alg"), K::HashAlg)?;
            if t != 0 { c.take(8, &format!("{p}/salt"), K::S2kSalt)?; }
            if t == 3 { c.take(1, &format!("{p}/count"), K::S2kCount)?; }
        }
        4 => {
            c.take(16, &format!("{p}/salt"), K::S2kSalt)?;
            c.take(1, &format!("{p}/t"), K::Argon2T)?;
            c.take(1, &format!("{p}/p"), K::Argon2P)?;
            c.take(1, &format!("{p}/m"), K::Argon2M)?;
        }
        _ => match len {
            Some(l) if l >= 1 => { c.take(l - 1, &format!("{p}/opaque"), K::Opaque)?; }
            _ => { c.rest(&format!("{p}/opaque"), K::Opaque); return Ok(false); }
        },
    }
    match len {
        Some(l) if c.pos - start != l => invalid(format!("{p}: specifier length octet says {l}, specifier has {}", c.pos - start)),
        _ => Ok(true),
    }
}

fn subpacket_area(c: &mut Cur, area: &str, width: usize, hashed: bool, out: &mut Vec<SubInfo>) -> R<(Span, Span)> {
    let lf = c.pos;
    let len = c.num(width, &format!("{area}_len"), K::AreaLen)?;
    let start = c.pos;
    c.region(len, &format!("{area} subpacket area"), |c| {
        let mut i = 0usize;
        while c.left() > 0 {
            let (l, len_field) = c.varlen(&format!("{area}/{i}/len"), K::SubpacketLen)?;
            if l == 0 { return invalid(format!("{area}/{i}: zero-length subpacket (no type octet)")); }
            let t = c.u8(&format!("{area}/{i}/type"), K::SubpacketType)?;
            let b = c.pos;
            c.take(l - 1, &format!("{area}/{i}/body"), K::SubpacketBody)?;
            out.push(SubInfo { hashed, typ: t & 0x7f, critical: t & 0x80 != 0, len_field, body: (b, c.pos) });
            i += 1;
        }
        Ok(())
    })?;
    Ok(((lf, start), (start, c.pos)))
}

// ------------------------------------------------------------------------------------------
// Tag 2: Signature
// ------------------------------------------------------------------------------------------

fn signature(c: &mut Cur) -> R<Summary> {
    let mut s = SigInfo { version: c.u8("version", K::Version)?, ..Default::default() };
    match s.version {
        2 | 3 => {
            if c.num(1, "hashed_len", K::AreaLen)? != 5 { return invalid("v3 signature: hashed length octet must be 5"); }
            s.hashed_len_field = (1, 2);
            s.typ = c.u8("type", K::SigType)?;
            s.v3_created = Some(be(c.take(4, "created", K::Time)?) as u32);
            s.hashed = (2, c.pos);
            s.unhashed = (c.pos, c.pos);
            s.unhashed_len_field = (c.pos, c.pos);
            let mut id = [0u8; 8];
            id.iter_mut().zip(c.take(8, "issuer", K::KeyId)?).for_each(|(d, x)| *d = *x);
            s.v3_issuer = Some(id);
            s.pk_alg = c.u8("pk_alg", K::PkAlg)?;
            s.hash_alg = c.u8("hash_alg", K::HashAlg)?;
        }
        4 | 6 => {
            let w = if s.version == 4 { 2 } else { 4 };
            s.typ = c.u8("type", K::SigType)?;
            s.pk_alg = c.u8("pk_alg", K::PkAlg)?;
            s.hash_alg = c.u8("hash_alg", K::HashAlg)?;
            (s.hashed_len_field, s.hashed) = subpacket_area(c, "hashed", w, true, &mut s.subpackets)?;
            (s.unhashed_len_field, s.unhashed) = subpacket_area(c, "unhashed", w, false, &mut s.subpackets)?;
        }
        _ => { c.rest("unknown_version", K::Opaque); return Ok(Summary::Other); }
    }
    let p = c.pos;
    c.take(2, "left16", K::Left16)?;
    s.left16 = (p, c.pos);
    if s.version == 6 {
        let n = c.num(1, "salt_len", K::SaltLen)?;
        let p = c.pos;
        c.take(n, "salt", K::Salt)?;
        s.salt = Some((p, c.pos));
    }
    let p = c.pos;
    let mut i = 0;
    match s.pk_alg {
        1..=3 => c.mpis("sig", &mut i, 1)?,
        17 | 19 | 22 => c.mpis("sig", &mut i, 2)?,
        27 => { c.take(64, "sig/native", K::NativeKeyMaterial)?; }
        28 => { c.take(114, "sig/native", K::NativeKeyMaterial)?; }
        _ => { c.rest("sig/opaque", K::Opaque); }
    }
    s.sig_material = (p, c.pos);
    Ok(Summary::Signature(s))
}

// ------------------------------------------------------------------------------------------
// Tags 5/6/7/14: keys
// ------------------------------------------------------------------------------------------

fn curve_oid(c: &mut Cur, p: &str) -> R<()> {
    let n = c.num(1, &format!("{p}/oid_len"), K::CurveOidLen)?;
    if n == 0 || n == 0xff { return invalid(format!("{p}: reserved curve OID length {n}")); }
    c.take(n, &format!("{p}/oid"), K::CurveOid)?;
    Ok(())
}

/// Algorithm-specific public key material.  Returns false (consuming nothing) for unknown algorithms.
fn public_material(c: &mut Cur, alg: u8, k: &mut KeyInfo) -> R<bool> {
    let (p, mut i) = ("public", 0usize);
    match alg {
        1..=3 => {
            let n = c.mpi(p, &mut i)?;
            let e = c.mpi(p, &mut i)?;
            k.rsa_n = c.b.get(n.0..n.1).map(<[u8]>::to_vec);
            k.rsa_e = c.b.get(e.0..e.1).map(<[u8]>::to_vec);
        }
        16 => c.mpis(p, &mut i, 3)?,
        17 => c.mpis(p, &mut i, 4)?,
        18 => {
            curve_oid(c, p)?;
            c.mpi(p, &mut i)?;
            let n = usize::from(c.peek("public/kdf")?);
            if n == 0 || n == 0xff { return invalid(format!("public/kdf: reserved KDF parameter length {n}")); }
            c.take(1 + n, "public/kdf", K::KdfParams)?;
        }
        19 | 22 => { curve_oid(c, p)?; c.mpi(p, &mut i)?; }
        _ => match native_key_len(alg) {
            Some(n) => { c.take(n, "public/native", K::NativeKeyMaterial)?; }
            None => return Ok(false),
        },
    }
    Ok(true)
}

/// Unprotected secret material (S2K usage 0).  Returns false for unknown algorithms.
fn secret_material(c: &mut Cur, alg: u8) -> R<bool> {
    let mut i = 0usize;
    match alg {
        1..=3 => c.mpis("secret", &mut i, 4)?,
        16..=19 | 22 => c.mpis("secret", &mut i, 1)?,
        _ => match native_key_len(alg) {
            Some(n) => { c.take(n, "secret/native", K::NativeKeyMaterial)?; }
            None => return Ok(false),
        },
    }
    Ok(true)
}

fn secret_part(c: &mut Cur, k: &mut KeyInfo) -> R<()> {
    let v6 = k.version == 6;
    let usage = c.u8("secret/usage", K::S2kUsage)?;
    k.s2k_usage = Some(usage);
    if usage == 0 {
        if !secret_material(c, k.pk_alg)? {
            c.rest("secret/opaque", K::Opaque);
        } else if !v6 {
            c.take(2, "secret/checksum", K::SecretChecksum)?;
        }
        return Ok(());
    }
    // v6: one octet counting all S2K parameter fields up to and including the IV / nonce.
    let params_end = if v6 {
        let n = c.num(1, "secret/params_len", K::S2kParamsLen)?;
        if n > c.left() { return Err(DecodeError::Truncated { at: c.pos, what: "secret/params".into() }); }
        Some(c.pos + n)
    } else { None };
    let sym = if usage >= 253 { c.u8("secret/sym_alg", K::SymAlg)? } else { usage };
    k.sym_alg = Some(sym);
    if usage == 253 { k.aead_alg = Some(c.u8("secret/aead_alg", K::AeadAlg)?); }
    if usage >= 253 {
        let spec_len = if v6 && usage != 255 { Some(c.num(1, "secret/s2k_len", K::S2kSpecLen)?) } else { None };
        if !s2k(c, "secret/s2k", spec_len, &mut k.s2k_type)? { return Ok(()); }
    }
    let known = match k.aead_alg { Some(a) => nonce_len(a), None => block_size(sym) };
    let Some(n) = known.or(params_end.map(|e| e.saturating_sub(c.pos))) else {
        c.rest("secret/opaque", K::Opaque); // unknown cipher: the IV cannot be delimited
        return Ok(());
    };
    if k.aead_alg.is_some() { c.take(n, "secret/nonce", K::Nonce)?; } else { c.take(n, "secret/iv", K::Iv)?; }
    if let Some(e) = params_end {
        if c.pos != e { return invalid(format!("secret/params_len: parameters end at {} but count octet says {e}", c.pos)); }
    }
    c.rest("secret/encrypted", K::EncryptedSecret);
    Ok(())
}

fn key(c: &mut Cur, secret: bool) -> R<Summary> {
    let mut k = KeyInfo { version: c.u8("version", K::Version)?, is_secret: secret, ..Default::default() };
    if !matches!(k.version, 2 | 3 | 4 | 6) {
        c.rest("unknown_version", K::Opaque);
        return Ok(Summary::Other);
    }
    k.created = be(c.take(4, "created", K::Time)?) as u32;
    if k.version < 4 { k.v3_expiry_days = Some(be(c.take(2, "expiry_days", K::Expiry)?) as u16); }
    k.pk_alg = c.u8("pk_alg", K::PkAlg)?;
    let alg = k.pk_alg;
    if k.version == 6 {
        let n = c.num(4, "public/len", K::KeyMaterialLen)?;
        let start = c.pos;
        c.region(n, "v6 public key material", |c| {
            if !public_material(c, alg, &mut k)? { c.rest("public/opaque", K::Opaque); }
            Ok(())
        })?;
        k.material = (start, c.pos);
    } else {
        let start = c.pos;
        if !public_material(c, alg, &mut k)? {
            // Unknown algorithm without a length: public and secret parts cannot be separated.
            c.rest("public/opaque", K::Opaque);
            k.material = (start, c.pos);
            k.public_end = c.pos;
            return Ok(Summary::Key(k));
        }
        k.material = (start, c.pos);
    }
    k.public_end = c.pos;
    if secret {
        secret_part(c, &mut k)?;
        k.secret_part = Some((k.public_end, c.pos));
    }
    Ok(Summary::Key(k))
}

// ------------------------------------------------------------------------------------------
// Tags 1/3/4: session keys and one-pass signatures
// ------------------------------------------------------------------------------------------

fn pkesk(c: &mut Cur) -> R<Summary> {
    let v = c.u8("version", K::Version)?;
    match v {
        3 => { c.take(8, "key_id", K::KeyId)?; }
        6 => {
            let n = c.num(1, "recipient_len", K::EskLen)?;
            c.region(n, "v6 PKESK recipient", |c| {
                if c.left() == 0 { return Ok(()); } // anonymous recipient
                let kv = c.u8("key_version", K::KeyVersionOctet)?;
                let want = match kv { 4 => Some(20), 6 => Some(32), _ => None };
                if want.is_some_and(|w| w != c.left()) {
                    return invalid(format!("v6 PKESK: v{kv} fingerprint of {} octets", c.left()));
                }
                c.rest("fingerprint", K::Fingerprint);
                Ok(())
            })?;
        }
        _ => { c.rest("unknown_version", K::Opaque); return Ok(Summary::Other); }
    }
    let alg = c.u8("pk_alg", K::PkAlg)?;
    let mut i = 0usize;
    match alg {
        1..=3 => c.mpis("esk", &mut i, 1)?,
        16 => c.mpis("esk", &mut i, 2)?,
        18 => {
            c.mpi("esk", &mut i)?;
            let n = c.num(1, "esk/len", K::EskLen)?;
            c.take(n, "esk/wrapped", K::EncryptedSessionKey)?;
        }
        25 | 26 => {
            c.take(if alg == 25 { 32 } else { 56 }, "esk/ephemeral", K::NativeKeyMaterial)?;
            let mut n = c.num(1, "esk/len", K::EskLen)?;
            if v == 3 {
                if n == 0 { return invalid("v3 PKESK: length octet 0 leaves no room for the algorithm octet"); }
                c.u8("esk/sym_alg", K::SymAlg)?;
                n -= 1;
            }
            c.take(n, "esk/wrapped", K::EncryptedSessionKey)?;
        }
        _ => { c.rest("esk/opaque", K::Opaque); }
    }
    Ok(Summary::Other)
}

fn skesk(c: &mut Cur) -> R<Summary> {
    let v = c.u8("version", K::Version)?;
    let mut ty = None;
    match v {
        4 => {
            c.u8("sym_alg", K::SymAlg)?;
            if s2k(c, "s2k", None, &mut ty)? { c.rest("esk", K::EncryptedSessionKey); }
        }
        5 | 6 => {
            let count = if v == 6 { Some(c.num(1, "params_len", K::EskLen)?) } else { None };
            let start = c.pos;
            c.u8("sym_alg", K::SymAlg)?;
            let aead = c.u8("aead_alg", K::AeadAlg)?;
            let spec_len = if v == 6 { Some(c.num(1, "s2k_len", K::S2kSpecLen)?) } else { None };
            if !s2k(c, "s2k", spec_len, &mut ty)? { return Ok(Summary::Other); }
            let n = match (nonce_len(aead), count) {
                (Some(n), _) => n,
                (None, Some(cnt)) => cnt.saturating_sub(c.pos - start),
                (None, None) => { c.rest("opaque", K::Opaque); return Ok(Summary::Other); }
            };
            c.take(n, "nonce", K::Nonce)?;
            if count.is_some_and(|cnt| cnt != c.pos - start) {
                return invalid(format!("v6 SKESK: count octet {:?} but parameters span {}", count, c.pos - start));
            }
            if c.left() < TAG_LEN {
                return Err(DecodeError::Truncated { at: c.pos, what: "auth_tag".into() });
            }
            c.take(c.left() - TAG_LEN, "esk", K::EncryptedSessionKey)?;
            c.take(TAG_LEN, "auth_tag", K::AuthTag)?;
        }
        _ => { c.rest("unknown_version", K::Opaque); }
    }
    Ok(Summary::Other)
}

fn ops(c: &mut Cur) -> R<Summary> {
    let v = c.u8("version", K::Version)?;
    if v != 3 && v != 6 { c.rest("unknown_version", K::Opaque); return Ok(Summary::Other); }
    c.u8("type", K::SigType)?;
    c.u8("hash_alg", K::HashAlg)?;
    c.u8("pk_alg", K::PkAlg)?;
    if v == 3 {
        c.take(8, "key_id", K::KeyId)?;
    } else {
        let n = c.num(1, "salt_len", K::SaltLen)?;
        c.take(n, "salt", K::Salt)?;
        c.take(32, "fingerprint", K::Fingerprint)?;
    }
    c.u8("nested", K::NestedFlag)?;
    Ok(Summary::Other)
}

// ------------------------------------------------------------------------------------------
// Data-carrying and miscellaneous packets
// ------------------------------------------------------------------------------------------

fn literal(c: &mut Cur) -> R<()> {
    c.u8("mode", K::LiteralMode)?;
    let n = c.num(1, "name_len", K::NameLen)?;
    c.take(n, "name", K::Name)?;
    c.take(4, "date", K::Time)?;
    c.rest("data", K::Data);
    Ok(())
}

fn user_attribute(c: &mut Cur) -> R<()> {
    let mut i = 0usize;
    while c.left() > 0 {
        let (l, _) = c.varlen(&format!("{i}/len"), K::UserAttrSubLen)?;
        if l == 0 { return invalid(format!("{i}: zero-length user attribute sub-record")); }
        c.u8(&format!("{i}/type"), K::UserAttrSubType)?;
        c.take(l - 1, &format!("{i}/body"), K::UserAttrBody)?;
        i += 1;
    }
    Ok(())
}

fn seipd(c: &mut Cur) -> R<()> {
    match c.u8("version", K::Version)? {
        1 => { c.rest("data", K::Data); }
        2 => {
            c.u8("sym_alg", K::SymAlg)?;
            c.u8("aead_alg", K::AeadAlg)?;
            c.u8("chunk_size", K::ChunkSize)?;
            c.take(32, "salt", K::Salt)?;
            c.rest("data", K::Data);
        }
        _ => { c.rest("unknown_version", K::Opaque); }
    }
    Ok(())
}

/// GnuPG / LibrePGP "OCB encrypted data" packet (tag 20).
fn gnupg_aead(c: &mut Cur) -> R<()> {
    if c.u8("version", K::Version)? != 1 { c.rest("unknown_version", K::Opaque); return Ok(()); }
    c.u8("sym_alg", K::SymAlg)?;
    let aead = c.u8("aead_alg", K::AeadAlg)?;
    c.u8("chunk_size", K::ChunkSize)?;
    match nonce_len(aead) {
        Some(n) => { c.take(n, "iv", K::Iv)?; c.rest("data", K::Data); }
        None => { c.rest("opaque", K::Opaque); }
    }
    Ok(())
}

/// Decode one packet body. On success the fields tile the body exactly.
pub fn decode_packet(tag: u8, body: &[u8]) -> R<Decoded> {
    let mut c = Cur::new(body);
    let mut summary = Summary::Other;
    match tag {
        1 => summary = pkesk(&mut c)?,
        2 => summary = signature(&mut c)?,
        3 => summary = skesk(&mut c)?,
        4 => summary = ops(&mut c)?,
        5 | 7 => summary = key(&mut c, true)?,
        6 | 14 => summary = key(&mut c, false)?,
        8 => { c.u8("alg", K::CompAlg)?; c.rest("data", K::Data); }
        9 | 13 | 21 => { c.rest("data", K::Data); }
        10 => if c.take(3, "marker", K::Data)? != b"PGP" { return invalid("marker packet body is not \"PGP\""); },
        11 => literal(&mut c)?,
        17 => user_attribute(&mut c)?,
        18 => seipd(&mut c)?,
        19 => { c.take(20, "sha1", K::AuthTag)?; }
        20 => gnupg_aead(&mut c)?,
        _ => { c.rest("opaque", K::Opaque); } // includes 12 (Trust)
    }
    if c.pos != body.len() { return Err(DecodeError::Trailing { at: c.pos }); }
    Ok(Decoded { tag, fields: c.fields, canonical: c.why.is_empty(), non_canonical_reasons: c.why, summary })
}

/// Fingerprint and key id from the wire bytes of the public part of a key packet body.
pub fn fingerprint(public_body: &[u8]) -> R<(Vec<u8>, [u8; 8])> {
    let Summary::Key(k) = decode_packet(6, public_body)?.summary else {
        return Err(DecodeError::Unsupported(format!("key version {:?}", public_body.first())));
    };
    let mut id = [0u8; 8];
    let mut msg = Vec::with_capacity(public_body.len() + 5);
    let fp = match k.version {
        4 => {
            let n = u16::try_from(public_body.len()).or_else(|_| invalid("v4 key body longer than 65535 octets"))?;
            msg.push(0x99);
            msg.extend_from_slice(&n.to_be_bytes());
            msg.extend_from_slice(public_body);
            let fp = sha1(&msg).to_vec();
            id.iter_mut().rev().zip(fp.iter().rev()).for_each(|(d, s)| *d = *s);
            fp
        }
        6 => {
            let n = u32::try_from(public_body.len()).or_else(|_| invalid("v6 key body too long"))?;
            msg.push(0x9b);
            msg.extend_from_slice(&n.to_be_bytes());
            msg.extend_from_slice(public_body);
            let fp = sha256(&msg).to_vec();
            id.iter_mut().zip(fp.iter()).for_each(|(d, s)| *d = *s);
            fp
        }
        _ => {
            let (Some(n), Some(e)) = (k.rsa_n, k.rsa_e) else { return invalid("v3 key is not RSA"); };
            id.iter_mut().rev().zip(n.iter().rev()).for_each(|(d, s)| *d = *s);
            msg.extend_from_slice(&n);
            msg.extend_from_slice(&e);
            md5(&msg).to_vec()
        }
    };
    Ok((fp, id))
}

// ------------------------------------------------------------------------------------------
// Packet framing and ASCII armor
// ------------------------------------------------------------------------------------------

/// Splits a binary packet stream into (tag, header_bytes, body).  For partial-length packets the
/// header is the tag octet plus the *first* length octet and the body is the concatenation of all
/// chunks.  Old-format indeterminate length runs to the end of the stream.
pub fn split_packets(stream: &[u8]) -> R<Vec<(u8, Vec<u8>, Vec<u8>)>> {
    let grab = |at: usize, n: usize, what: &str| -> R<&[u8]> {
        at.checked_add(n).and_then(|e| stream.get(at..e))
            .ok_or_else(|| DecodeError::Truncated { at, what: what.to_string() })
    };
    let mut out = Vec::new();
    let mut p = 0usize;
    while p < stream.len() {
        let start = p;
        let ctb = be(grab(p, 1, "packet tag octet")?) as u8;
        p += 1;
        if ctb & 0x80 == 0 { return invalid(format!("packet tag octet {ctb:#04x} at {start} lacks the high bit")); }
        let mut body = Vec::new();
        if ctb & 0x40 != 0 {
            let mut header: Option<Vec<u8>> = None;
            loop {
                let o = be(grab(p, 1, "packet length")?);
                let (n, len, partial) = match o {
                    0..=191 => (1, o, false),
                    192..=223 => (2, be(grab(p, 2, "packet length")?) - (192 << 8) + 192, false),
                    255 => (5, be(grab(p, 5, "packet length")?) & 0xffff_ffff, false),
                    _ => (1, 1u64 << (o & 0x1f), true),
                };
                p += n;
                if header.is_none() { header = Some(grab(start, p - start, "packet header")?.to_vec()); }
                let len = usize::try_from(len).or_else(|_| invalid("packet length too large"))?;
                body.extend_from_slice(grab(p, len, "packet body")?);
                p += len;
                if !partial { break; }
            }
            out.push((ctb & 0x3f, header.unwrap_or_default(), body));
        } else {
            let n = match ctb & 3 { 0 => 1, 1 => 2, 2 => 4, _ => 0 };
            let len = if n == 0 { stream.len() - p } else {
                usize::try_from(be(grab(p, n, "packet length")?)).or_else(|_| invalid("packet length too large"))?
            };
            p += n;
            let header = grab(start, p - start, "packet header")?.to_vec();
            body.extend_from_slice(grab(p, len, "packet body")?);
            p += len;
            out.push(((ctb >> 2) & 0x0f, header, body));
        }
    }
    Ok(out)
}

/// Minimal ASCII-armor decoder: first `-----BEGIN` block, headers skipped up to the blank line,
/// base64 body up to the `=` checksum line or the `-----END` line.  The checksum is ignored.
pub fn dearmor(text: &[u8]) -> R<Vec<u8>> {
    let mut lines = text.split(|&b| b == b'\n').map(<[u8]>::trim_ascii);
    if !lines.by_ref().any(|l| l.starts_with(b"-----BEGIN ")) { return invalid("no armor header line"); }
    let mut in_headers = true;
    let (mut acc, mut bits, mut out) = (0u32, 0u32, Vec::new());
    'lines: for l in lines {
        if in_headers {
            in_headers = false;
            if l.is_empty() { continue; }
            if l.contains(&b':') { in_headers = true; continue; }
        }
        if l.starts_with(b"-----") || l.starts_with(b"=") { break; }
        for &ch in l {
            let v = match ch {
                b'A'..=b'Z' => ch - b'A',
                b'a'..=b'z' => ch - b'a' + 26,
                b'0'..=b'9' => ch - b'0' + 52,
                b'+' => 62,
                b'/' => 63,
                b'=' => break 'lines,
                b' ' | b'\t' | b'\r' => continue,
                _ => return invalid(format!("armor: invalid base64 character {ch:#04x}")),
            };
            acc = ((acc << 6) | u32::from(v)) & 0xff_ffff;
            bits += 6;
            if bits >= 8 { bits -= 8; out.push((acc >> bits) as u8); }
        }
    }
    Ok(out)
}

// ------------------------------------------------------------------------------------------
// Hash functions (fingerprints only; not constant time, not streaming)
// ------------------------------------------------------------------------------------------

/// Merkle-Damgard padding to 64-octet blocks with a 64-bit bit length.
fn md_pad(msg: &[u8], big_endian: bool) -> Vec<u8> {
    let mut m = msg.to_vec();
    m.push(0x80);
    while m.len() % 64 != 56 { m.push(0); }
    let bits = (msg.len() as u64).wrapping_mul(8);
    m.extend_from_slice(&if big_endian { bits.to_be_bytes() } else { bits.to_le_bytes() });
    m
}

pub fn sha1(msg: &[u8]) -> [u8; 20] {
    let mut h: [u32; 5] = [0x67452301, 0xEFCDAB89, 0x98BADCFE, 0x10325476, 0xC3D2E1F0];
    for blk in md_pad(msg, true).chunks_exact(64) {
        let mut w = [0u32; 80];
        for (wi, ch) in w.iter_mut().zip(blk.chunks_exact(4)) { *wi = be(ch) as u32; }
        for i in 16..80 { w[i] = (w[i - 3] ^ w[i - 8] ^ w[i - 14] ^ w[i - 16]).rotate_left(1); }
        let [mut a, mut b, mut c, mut d, mut e] = h;
        for (i, wi) in w.iter().enumerate() {
            let (f, k) = match i / 20 {
                0 => ((b & c) | (!b & d), 0x5A827999),
                1 => (b ^ c ^ d, 0x6ED9EBA1),
                2 => ((b & c) | (b & d) | (c & d), 0x8F1BBCDC),
                _ => (b ^ c ^ d, 0xCA62C1D6u32),
            };
            let t = a.rotate_left(5).wrapping_add(f).wrapping_add(e).wrapping_add(k).wrapping_add(*wi);
            (e, d, c, b, a) = (d, c, b.rotate_left(30), a, t);
        }
        for (hi, v) in h.iter_mut().zip([a, b, c, d, e]) { *hi = hi.wrapping_add(v); }
    }
    let mut out = [0u8; 20];
    for (o, v) in out.chunks_exact_mut(4).zip(h) { o.copy_from_slice(&v.to_be_bytes()); }
    out
}

/// Low 32 bits of floor(2^32 * p^(1/k)): the "fractional part of the k-th root" constants of SHA-2,
/// computed exactly with integer arithmetic (p < 2^9, so p << 32k fits in u128 for k <= 3).
fn frac_root(p: u128, k: u32) -> u32 {
    let x = p << (32 * k);
    let (mut lo, mut hi) = (0u128, 1u128 << 36);
    while hi - lo > 1 {
        let mid = (lo + hi) / 2;
        if mid.pow(k) <= x { lo = mid; } else { hi = mid; }
    }
    lo as u32
}

pub fn sha256(msg: &[u8]) -> [u8; 32] {
    let mut primes = [0u128; 64];
    let mut cand = 2u128;
    for slot in primes.iter_mut() {
        while (2..cand).any(|d| cand % d == 0) { cand += 1; }
        *slot = cand;
        cand += 1;
    }
    let mut k = [0u32; 64];
    for (ki, p) in k.iter_mut().zip(primes) { *ki = frac_root(p, 3); }
    let mut h = [0u32; 8];
    for (hi, p) in h.iter_mut().zip(primes) { *hi = frac_root(p, 2); }
    for blk in md_pad(msg, true).chunks_exact(64) {
        let mut w = [0u32; 64];
        for (wi, ch) in w.iter_mut().zip(blk.chunks_exact(4)) { *wi = be(ch) as u32; }
        for i in 16..64 {
            let s0 = w[i - 15].rotate_right(7) ^ w[i - 15].rotate_right(18) ^ (w[i - 15] >> 3);
            let s1 = w[i - 2].rotate_right(17) ^ w[i - 2].rotate_right(19) ^ (w[i - 2] >> 10);
            w[i] = w[i - 16].wrapping_add(s0).wrapping_add(w[i - 7]).wrapping_add(s1);
        }
        let mut v = h;
        for (wi, ki) in w.iter().zip(k) {
            let [a, b, c, d, e, f, g, hh] = v;
            let s1 = e.rotate_right(6) ^ e.rotate_right(11) ^ e.rotate_right(25);
            let t1 = hh.wrapping_add(s1).wrapping_add((e & f) ^ (!e & g)).wrapping_add(ki).wrapping_add(*wi);
            let s0 = a.rotate_right(2) ^ a.rotate_right(13) ^ a.rotate_right(22);
            let t2 = s0.wrapping_add((a & b) ^ (a & c) ^ (b & c));
            v = [t1.wrapping_add(t2), a, b, c, d.wrapping_add(t1), e, f, g];
        }
        for (hi, x) in h.iter_mut().zip(v) { *hi = hi.wrapping_add(x); }
    }
    let mut out = [0u8; 32];
    for (o, v) in out.chunks_exact_mut(4).zip(h) { o.copy_from_slice(&v.to_be_bytes()); }
    out
}

pub fn md5(msg: &[u8]) -> [u8; 16] {
    const S: [[u32; 4]; 4] = [[7, 12, 17, 22], [5, 9, 14, 20], [4, 11, 16, 23], [6, 10, 15, 21]];
    let mut h: [u32; 4] = [0x67452301, 0xefcdab89, 0x98badcfe, 0x10325476];
    for blk in md_pad(msg, false).chunks_exact(64) {
        let mut m = [0u32; 16];
        for (mi, ch) in m.iter_mut().zip(blk.chunks_exact(4)) { *mi = (be(ch) as u32).swap_bytes(); }
        let [mut a, mut b, mut c, mut d] = h;
        for i in 0..64usize {
            let (f, g) = match i / 16 {
                0 => ((b & c) | (!b & d), i),
                1 => ((d & b) | (!d & c), 5 * i + 1),
                2 => (b ^ c ^ d, 3 * i + 5),
                _ => (c ^ (b | !d), 7 * i),
            };
            // K[i] = floor(2^32 * |sin(i + 1)|), as defined by RFC 1321.
            let k = (((i + 1) as f64).sin().abs() * 4294967296.0) as u32;
            let t = a.wrapping_add(f).wrapping_add(k).wrapping_add(m[g % 16]);
            (a, d, c, b) = (d, c, b, b.wrapping_add(t.rotate_left(S[i / 16][i % 4])));
        }
        for (hi, v) in h.iter_mut().zip([a, b, c, d]) { *hi = hi.wrapping_add(v); }
    }
    let mut out = [0u8; 16];
    for (o, v) in out.chunks_exact_mut(4).zip(h) { o.copy_from_slice(&v.to_le_bytes()); }
    out
}
