#![allow(dead_code)]
//! rpgp-mc: bounded-exhaustive exploration ("model checking") of rPGP against executable
//! reference models.  See /verif/DESIGN.md.

mod common;
mod engine;
mod props;
mod reference;

use engine::{Ctx, Tier};

#[global_allocator]
static ALLOC: engine::resmon::Counting = engine::resmon::Counting;

fn usage() -> ! {
    eprintln!("usage: rpgp-mc <C01..C19> [--tier quick|thorough] [--replay <file>]");
    std::process::exit(2);
}

fn main() {
    let args: Vec<String> = std::env::args().skip(1).collect();
    if args.is_empty() {
        usage();
    }
    let id = args[0].to_uppercase();
    let mut tier = match std::env::var("VERIF_TIER").as_deref() {
        Ok("thorough") => Tier::Thorough,
        _ => Tier::Quick,
    };
    let mut replay: Option<String> = None;
    let mut worker: Option<(String, u64, u64)> = None;
    let mut i = 1;
    while i < args.len() {
        match args[i].as_str() {
            "--tier" => {
                i += 1;
                tier = match args.get(i).map(|s| s.as_str()) {
                    Some("quick") => Tier::Quick,
                    Some("thorough") => Tier::Thorough,
                    _ => usage(),
                };
            }
            "--worker" => {
                let sp = args.get(i + 1).cloned().unwrap_or_else(|| usage());
                let a = args.get(i + 2).and_then(|s| s.parse().ok()).unwrap_or_else(|| usage());
                let b = args.get(i + 3).and_then(|s| s.parse().ok()).unwrap_or_else(|| usage());
                worker = Some((sp, a, b));
                i += 3;
            }
            "--replay" => {
                i += 1;
                replay = Some(args.get(i).cloned().unwrap_or_else(|| usage()));
            }
            _ => usage(),
        }
        i += 1;
    }
    let seed: u64 = std::env::var("VERIF_SEED")
        .ok()
        .and_then(|s| s.parse().ok())
        .unwrap_or(0);

    engine::install_panic_hook();
    // H1: pin the clock so that byte-level differential oracles and replays are exact.
    pgp::verif_hooks::set_now(Some(common::NOW));

    let Some(prop) = props::lookup(&id) else {
        eprintln!("unknown property {id}");
        std::process::exit(2);
    };

    if let Some((space, a, b)) = worker {
        let Some(w) = prop.worker else {
            eprintln!("property {id} has no worker mode");
            std::process::exit(2);
        };
        match w(tier, &space, a, b) {
            Some(v) => {
                println!("{v}");
                std::process::exit(0);
            }
            None => {
                eprintln!("unknown worker space {space}");
                std::process::exit(2);
            }
        }
    }

    if let Some(path) = replay {
        let s = std::fs::read_to_string(&path).unwrap_or_else(|e| {
            eprintln!("cannot read {path}: {e}");
            std::process::exit(2)
        });
        let v: serde_json::Value = serde_json::from_str(&s).unwrap_or_else(|e| {
            eprintln!("bad replay file: {e}");
            std::process::exit(2)
        });
        let space = v["space"].as_str().unwrap_or("");
        let r = engine::guarded(|| (prop.replay)(space, &v["case"]));
        match r {
            Ok(Some(o)) => {
                println!("replay of {path}: class={}", o.class);
                for x in &o.viol {
                    println!("  violation {}: {}", x.sig, x.what);
                }
                std::process::exit(if o.viol.is_empty() { 0 } else { 1 });
            }
            Ok(None) => {
                eprintln!("replay: unknown space {space:?} or undecodable case");
                std::process::exit(2);
            }
            Err((loc, msg)) => {
                println!("replay of {path}: panic at {loc}: {msg}");
                std::process::exit(1);
            }
        }
    }

    let ctx = Ctx::new(&id, tier, seed);
    let r = engine::guarded(|| (prop.check)(&ctx));
    if let Err((loc, msg)) = r {
        eprintln!("MACHINERY: check driver panicked at {loc}: {msg}");
        std::process::exit(2);
    }
    let code = ctx.finish(&prop.replay);
    std::process::exit(code);
}
