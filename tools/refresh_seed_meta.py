#!/usr/bin/env python3
"""Rewrites the `verification` (and, for agent-made seeds, `confirmation`) part of every
seeded/<name>/meta.json from notes/seeded_results.jsonl (what tools/seedtest.py observed) and
seeded/<name>/confirm.json (what tools/confirm_seeds.sh observed in a scratch worktree).
Usage: tools/refresh_seed_meta.py [name ...]"""
import json, os, sys, glob
root = '/verif/seeded'
names = sys.argv[1:] or sorted(os.path.basename(d) for d in glob.glob(root + '/*') if os.path.isdir(d))
hist = {}
for l in open('/verif/notes/seeded_results.jsonl'):
    try:
        r = json.loads(l)
    except Exception:
        continue
    if 'seed' not in r or r.get('tier', 'quick') != 'quick' or not isinstance(r.get('check'), str):
        continue
    hist.setdefault(r['seed'], {}).setdefault(r['check'], []).append((r['result'], r.get('detail', '')))
for n in names:
    p = f'{root}/{n}/meta.json'
    if not os.path.exists(p):
        continue
    m = json.load(open(p))
    m.setdefault('breaks_property', m.get('property'))
    h = hist.get(n, {})
    last = {c: v[-1] for c, v in h.items()}
    m['verification'] = {
        'how': f'git -C /repo apply seeded/{n}/patch.diff; ./check <ID> --tier quick for each ID below; git -C /repo checkout -- .  (tools/seedtest.py {n})',
        'caught_by': sorted(c for c, (r, _) in last.items() if r == 'CAUGHT'),
        'not_reported_by': sorted(c for c, (r, _) in last.items() if r != 'CAUGHT'),
        'signatures': {c: d.split(' [')[0][:300] for c, (r, d) in last.items() if r == 'CAUGHT'},
        'history': {c: [r for r, _ in v] for c, v in h.items()},
    }
    cp = f'{root}/{n}/confirm.json'
    if os.path.exists(cp):
        m['confirmation'] = json.load(open(cp))
    json.dump(m, open(p, 'w'), indent=1)
print(f'refreshed {len(names)} seeds')
