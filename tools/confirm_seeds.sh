#!/bin/bash
# Confirms seeded changes in ONE scratch worktree (/tmp/confirm-wt, removed at the end):
#   suite passes with the change; demo fails with it and passes without it.
# Usage: tools/confirm_seeds.sh name...     (results -> /verif/seeded/<name>/confirm.json)
set -u
WT=/tmp/confirm-wt
export CARGO_TARGET_DIR=$WT/target CARGO_NET_OFFLINE=true
[ -d $WT ] || git -C /repo worktree add --detach $WT HEAD >/dev/null 2>&1 || exit 2
cd $WT && git checkout -q --detach $(git -C /repo rev-parse HEAD) || exit 2
for n in "$@"; do
  d=/verif/seeded/$n
  [ -f $d/confirm.json ] && continue
  git checkout -q -- . ; rm -f tests/seeded_demo.rs
  cp $d/demo.rs tests/seeded_demo.rs
  cargo test --offline --test seeded_demo > $d/.demo_without.log 2>&1; without=$?
  if ! git apply $d/patch.diff 2> $d/.apply.log; then echo "{\"applies\": false}" > $d/confirm.json; continue; fi
  cargo test --offline --test seeded_demo > $d/.demo_with.log 2>&1; with=$?
  rm -f tests/seeded_demo.rs
  cargo nextest run --workspace --no-fail-fast --test-threads 8 --offline > $d/.suite.log 2>&1; suite=$?
  summary=$(grep -E "^\s+Summary" $d/.suite.log | tail -1 | sed 's/"/ /g')
  git checkout -q -- .
  echo "{\"applies\": true, \"repo_head\": \"$(git rev-parse --short HEAD)\", \"suite_exit\": $suite, \"suite_summary\": \"$summary\", \"demo_exit_with_change\": $with, \"demo_exit_without_change\": $without}" > $d/confirm.json
  echo "$n: $(cat $d/confirm.json)"
done
cd / && git -C /repo worktree remove --force $WT
