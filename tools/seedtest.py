#!/usr/bin/env python3
"""Apply each seeded change in /verif/seeded/<name>/patch.diff to /repo, run the quick (or given) tier of the
checks named in its meta.json ("property", optional "also"), record which checks report a VIOLATION, undo the change.
Usage: tools/seedtest.py [--tier quick|thorough] [name ...]"""
import json, os, subprocess, sys, glob, time
tier='quick'
args=sys.argv[1:]
if args[:1]==['--tier']:
    tier=args[1]; args=args[2:]
names=args or sorted(os.path.basename(d) for d in glob.glob('/verif/seeded/*') if os.path.isdir(d))
assert subprocess.run(['git','-C','/repo','status','--porcelain','--untracked-files=no'],capture_output=True,text=True).stdout.strip()=='' , "/repo not clean"
results=[]
for n in names:
    d=f'/verif/seeded/{n}'
    meta=json.load(open(f'{d}/meta.json'))
    props=[meta['property']]+meta.get('also',[])
    r=subprocess.run(['git','-C','/repo','apply',f'{d}/patch.diff'],capture_output=True,text=True)
    if r.returncode!=0:
        results.append((n,props,'PATCH-DOES-NOT-APPLY',r.stderr.strip()[:200])); continue
    try:
        for p in props:
            t0=time.time()
            r=subprocess.run(['./check',p,'--tier',tier],cwd='/verif',capture_output=True,text=True)
            sigs=[l.strip() for l in r.stdout.splitlines() if l.strip().startswith('signature:')]
            results.append((n,p,{0:'MISSED',1:'CAUGHT'}.get(r.returncode,f'EXIT{r.returncode}'),'; '.join(sigs)[:300]+f' [{time.time()-t0:.0f}s]'))
    finally:
        subprocess.run(['git','-C','/repo','checkout','--','.'],check=True)
for x in results: print(*x,sep=' | ')
with open('/verif/notes/seeded_results.jsonl','a') as f:
    for x in results: f.write(json.dumps({"seed":x[0],"check":x[1],"result":x[2],"detail":x[3],"tier":tier,"repo":subprocess.run(['git','-C','/repo','log','--format=%h','-1'],capture_output=True,text=True).stdout.strip()})+'\n')
# evidence files were rewritten by runs on a modified tree: restore them from git
subprocess.run(['git','-C','/verif','checkout','--','evidence'],check=False)
