#!/usr/bin/env python3
"""Regenerates /verif/MANIFEST.json from the table below (kept in one place so that it is always valid)."""
import json, os, subprocess

CHECKS = {k: tuple(v) for k, v in json.load(open('/verif/tools/checks.json')).items()}
NOT_YET = {}

def main():
    props = [json.loads(l) for l in open('/verif/properties.jsonl')]
    checks = []
    na = []
    for p in props:
        pid = p['id']
        if pid in CHECKS:
            eng, tech, text, note, ref = CHECKS[pid]
            checks.append({
                "property_id": pid,
                "quick_cmd": f"./check {pid} --tier quick",
                "thorough_cmd": f"./check {pid} --tier thorough",
                "evidence_file": f"/verif/evidence/{pid}.json",
                "replay_cmd_template": f"./check {pid} --replay {{path}}",
                "engine": eng,
                "level_claimed": {"category": "model_checking", "text": text, "design_ref": ref},
                "level_note": note,
                "technique": tech,
            })
        else:
            na.append({"property_id": pid, "reason": NOT_YET.get(pid, "check not built yet in this round (design in DESIGN.md §2); not claimed until it exists")})
    hooks_commits = subprocess.run(["git","-C","/repo","log","--format=%H %s","--grep=^verif hooks"],capture_output=True,text=True).stdout.strip().splitlines()
    m = {
        "version": 1,
        "setup_cmd": "cd /verif/harness && CARGO_NET_OFFLINE=true cargo build --profile verif --offline",
        "hooks": {
            "guard": "--cfg rpgp_verif",
            "enable": "harness/.cargo/config.toml sets rustflags = [\"--cfg\", \"rpgp_verif\"] for the harness build, which compiles /repo as a path dependency; nothing else ever sets the cfg",
            "baseline_off_cmd": "cd /repo && cargo nextest run --workspace --no-fail-fast --test-threads 16 --offline",
            "source_commits": [c.split()[0] for c in hooks_commits],
            "add_only": True,
        },
        "engines": [
            {"name": "rpgp-mc", "path": "/verif/harness", "serves_properties": sorted(CHECKS.keys()),
             "kind_free_text": "one Rust binary linking the real pgp crate (path dependency on /repo, overflow checks and debug assertions on): E1 ioexplore (scripted Read/Write/consumer environment, deviation-bounded and state-pruned exhaustive schedule exploration), E2 mutexplore (all single deviations of valid artefacts), E3 opsearch (BFS over API operation sequences), E4 matrix (complete small-scope enumeration against reference models written in Rust), E5 resmon (counting allocator)"},
        ],
        "checks": checks,
        "not_applicable": na,
        "notes": "exit codes: 0 held on everything explored; 1 + VIOLATION line; 2 machinery error (never a verdict). known_findings.json lists recorded and fixed defects.",
    }
    json.dump(m, open('/verif/MANIFEST.json','w'), indent=1)
    print("checks:", [c['property_id'] for c in checks], "not claimed:", len(na))

main()
